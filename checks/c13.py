"""C13 - effect laws: dry mix is identity, silence stays silent, finite, linearity, chunk-free.

Two parts (see MANIFEST note):

A. A genuine model: DelayLine.tla models the buffer handling of the delay effect (delay.rs `process`: sub-chunking
   by the buffer length, read-oldest / shift / write-at-end, feedback and nested gain, wet/dry) with integer samples.
   1. TLC checks MC_DelayLine exhaustively: for every input over a small alphabet, every configuration and EVERY
      partition of the input into process calls the model's outputs satisfy the property-level monitor P_C13 (the
      echo definition, which knows nothing about process calls), plus state invariants and reachability witnesses.
   2. TLC emits every behaviour (configuration x index-coded input x partition) of the model (Gen_DelayLine); the
      driver `c13` feeds exactly these slices to the real `DelayBuilder` effect (8 Hz, delay k/8 s, samples k/256).
   3. TLC (T_C13) judges every recorded process call against P_C13 and compares it with the model (drift).
B. A law checker: for all eight built-in effects the driver builds the real effect through its public builder and
   records paired runs (neutral setting, silence, long runs, a / b / a+b, c*a, two partitions) for seeded,
   boundary-biased parameters, signals, sample rates and partitions; TLC validates the laws of the statement on the
   recorded integer observations (P_C13 via T_C13).  TLC explores nothing here: it is the judge of recorded runs."""
import json
import math
import os
import random
import re
import time
from concurrent.futures import ThreadPoolExecutor

from lib.kvlib import *

PROP = "C13"
# TRUE: the model of the source expects a panic for a delay shorter than one frame (as delay.rs does today).
# Only affects the drift comparison, never the verdict on recorded traces.
SUBFRAME_PANICS = False
# scenario classes that reproduce defects already listed in DESIGN.md 9; a class is judged only once
# known_findings.json has an entry with that id for C13 (open: KNOWN-FINDING, fixed: judged like everything else)
DEFECT_CLASSES = {"subframe_delay": "D7", "drive_silent": "D8"}

MANIFEST = dict(
    level="other", design_ref="DESIGN.md 8 (C13), 10",
    technique="(A) TLA+ model of the delay effect's buffer handling (DelayLine.tla) checked exhaustively by TLC against the property-level echo definition for every input, configuration and partition into process calls; every TLC-generated behaviour replayed on the real delay effect and validated by TLC. (B) TLA+ law checker (P_C13/T_C13) over integer observations of paired runs of all eight real built-in effects recorded by a seeded driver",
    text="(A, genuine model) The delay line - ring of D frames, sub-chunking of each process call by the buffer length, feedback gain and a nested gain in the feedback path in {0,1}, mix in {dry,wet}, integer samples - is modelled from delay.rs and TLC checks for every input of up to 8 samples, D = 1..3 (4 thorough) and every partition of the input into process calls that the outputs equal the per-sample echo definition out[n] = dry*in[n] + wet*echo[n], line[n] = in[n] + G*line[n-D] (so: chunk independence and echo timing), with state invariants (buffer = last D values of the recurrence) and reachability witnesses; every behaviour TLC generates (all partitions x index-coded inputs x configurations) is replayed on the real DelayBuilder effect with exact dyadic samples and TLC validates each recorded process call against the same definition and against the model. (B, law checking over recorded runs) For compressor, delay (also with one effect nested in its feedback path), distortion, EQ filter, filter, panning control, reverb and volume control, built through their public builders, the driver records paired runs and TLC checks: neutral setting (mix 0, 0 dB, centre, 0 dB EQ gain, hard clip at 0 dB) => output == input sample for sample; zero input from a fresh effect => zero output; finite input => no panic and finite output over long runs (100k frames quick, 1M thorough) at parameter range edges; superposition and scaling for the linear effects within a stated, parameter-derived tolerance; equal output (every f32 sample ==) for two different partitions into process calls; for seeded boundary-biased parameters, signals (noise, impulse, step, DC, full scale, subnormals, sine, burst) and sample rates 8 kHz..192 kHz.",
    note="Only part A is a model explored by TLC; its exhaustiveness is over the stated small bounds and gains 0/1 (no fractional feedback, no nested delay). Part B is sampled, not exhaustive: TLC adds no exploration there, it evaluates the laws on integer observations (windows of round(x*1e7/mag) for the first/last 32 frames, whole-run digests - counts of differing/non-zero/non-finite samples and the largest deviation - computed by the driver). Parameters are constant during a run (no tweens or modulators: that is C11/C06 territory). Linearity tolerance: 11e-7 * mag * K, mag = peak magnitude of the runs involved, K >= 1 computed from the effect parameters alone (memoryless: 4; state-variable filters: ceil((2*sqrt(8*Tm) + Tm/4)*A) with Tm the memory of the recursion in frames and A its internal gain; delay/reverb loops: linear in the number of passes that are still audible; derivation in checks/c13.py `conditioning`); configurations with K > 2000 are checked for the other laws only. Compressor ratios below 0.25 (expansion by hundreds of dB), delay feedback above 0 dB and EQ q = 0 are treated as outside the documented ranges. The first echo's level (feedback gain before or after the output tap) is not fixed by the documentation; either is accepted if used consistently. Delay times shorter than one frame and distortion drive <= -60 dB are separate scenario classes (known defects D7/D8), judged only once recorded in known_findings.json.")

KMAX = 2000
RATES = [8000, 11025, 22050, 44100, 48000, 88200, 96000, 192000]


def write_cfg(name, text):
    p = os.path.join(OUT, "cfg", name)
    os.makedirs(os.path.dirname(p), exist_ok=True)
    open(p, "w").write(text)
    return p


# ----------------------------------------------------------------------------- A: the delay-line model

def dl_cfg(n, vals, ds, b, mode, body, spec="Spec"):
    vs = "Vals <- SignedVals" if vals == "signed" else "Vals = {%s}" % ", ".join(map(str, vals))
    return ("SPECIFICATION %s\nCONSTANTS\n  N = %d\n  %s\n  Ds = {%s}\n  NGs = {0, 1}\n  B = %d\n  InMode = \"%s\"\n"
            "  SubFrameFixed = %s\n%s\nCHECK_DEADLOCK FALSE\n" % (spec, n, vs, ", ".join(map(str, ds)), b, mode,
                                                               "FALSE" if SUBFRAME_PANICS else "TRUE", body))


DL_INVS = "INVARIANTS PropertyHolds Strict TypeOK BufferIsLine OutputSoFar"
DL_WITNESSES = ["W_ThreeSubChunks", "W_PartialShift", "W_SecondEcho", "W_ConvDecided", "W_DrySession", "W_NestedSilences"]


def model_check(res, tier):
    """exhaustive runs; returns when all are done (they run side by side, 4 + 2 + 2 workers)"""
    jobs = []
    if tier == "quick":
        jobs.append(("DelayLine N=8 vals={0,1} D=1..3 all partitions", dl_cfg(8, [0, 1], [1, 2, 3], 8, "all", DL_INVS), 4, None))
    else:
        jobs.append(("DelayLine N=8 vals={-1,0,1} D=1..4 all partitions", dl_cfg(8, "signed", [1, 2, 3, 4], 8, "all", DL_INVS), 4, None))
    # a delay shorter than one frame: the model panics (chunks_mut(0)); the monitor calls that a violation, named as known finding
    jobs.append(("DelayLine D=0 (known finding)", dl_cfg(4, [0, 1], [0], 4, "all", "INVARIANTS PropertyHolds TypeOK"), 1, None))
    if SUBFRAME_PANICS:
        jobs.append(("w", dl_cfg(4, [0, 1], [0], 4, "all", "INVARIANT W_ZeroDelayPanics"), 1, "W_ZeroDelayPanics"))
    for w in DL_WITNESSES:
        jobs.append(("w", dl_cfg(6, [0, 1], [1, 2], 6, "all", "INVARIANT " + w), 1, w))

    def one(job):
        k, (name, text, workers, expect) = job
        cfg = write_cfg("DelayLine_%s_%d.cfg" % (tier, k), text)
        st = tlc_check("MC_DelayLine.tla", cfg, workers=workers, timeout=3000, expect_violation=expect, tag="c13mc%d" % k)
        return name, st, expect

    with ThreadPoolExecutor(max_workers=5) as ex:
        done = list(ex.map(one, enumerate(jobs)))
    for name, st, expect in done:
        if expect:
            continue
        if st["violated"]:
            # a model-level counterexample is never an alarm by itself (DESIGN 3)
            res.drift.append({"model": name, "invariant": st["violated"]})
        res.add_mc(name, st)
    res.notes["witnesses_reached"] = DL_WITNESSES + (["W_ZeroDelayPanics"] if SUBFRAME_PANICS else [])


def gen_delayline(tier, rng):
    """every behaviour of the model for index-coded inputs -> scenarios for the real delay effect"""
    n, b, ds = (7, 4, [0, 1, 2, 3]) if tier == "quick" else (8, 8, [0, 1, 2, 3, 4])
    cfg = write_cfg("Gen_DelayLine_%s.cfg" % tier, dl_cfg(n, [0, 1], ds, b, "coded", "INVARIANT Dump", spec="GSpec"))
    behs = tlc_generate("Gen_DelayLine.tla", cfg, "bfs", timeout=3000, tag="c13g")
    if not behs:
        raise ToolError("Gen_DelayLine produced no behaviour")
    seen, scen = set(), []
    for bh in sorted(behs, key=lambda x: json.dumps(x, sort_keys=True)):
        key = json.dumps(bh, sort_keys=True)
        if key in seen:
            continue
        seen.add(key)
        scen.append(dl_scenario(bh["d"], bh["fb"], bh["ng"], bh["mix"], bh["chunks"], b, "tlc-bfs", exp=bh["exp"]))
    return scen


def dl_scenario(d, fb, ng, mix, chunks, bs, src, exp=None, sub=0):
    """left channel = the model's input, right channel = another exact signal derived from it"""
    k, out = 0, []
    for c in chunks:
        fr = []
        for v in c:
            k += 1
            fr.append([v, 3 * k - 2 * v])
        out.append(fr)
    h = behaviour_hash([d, fb, ng, mix, chunks])
    s = {"kind": "dl", "d": d, "fb": fb, "ng": ng, "nest": ("vol" if ng == 0 or int(h[:2], 16) % 2 else "none"), "mix": mix,
         "sc": 256, "bs": bs, "sub": sub, "chunks": out, "cls": "subframe_delay" if d == 0 else "normal", "src": src}
    if exp is not None:
        s["exp"] = exp
    return s


def gen_dl_random(rng, count):
    """longer inputs, longer delays, random partitions: judged by the same echo definition"""
    scen = []
    for _ in range(count):
        d = rng.choice([1, 2, 3, 4, 5, 7, 8, 12, 16])
        bs = rng.choice([1, 2, 3, 4, 8, 16])
        n = rng.randrange(1, 65)
        fb, mix = rng.randrange(2), rng.choice([0, 1, 1, 1])
        ng = rng.choice([0, 1, 1])
        vals = [rng.choice([0, 0, 1, -1, 2, -3, 5, 100, -128, rng.randrange(-255, 256)]) for _ in range(n)]
        if rng.random() < 0.2:
            vals = [0] * n                                    # silence
        if rng.random() < 0.2:
            vals = [1 << (i % 12) for i in range(n)]
        chunks, i = [], 0
        while i < n:
            ln = min(n - i, rng.choice([1, bs, rng.randrange(1, bs + 1)]))
            chunks.append(vals[i:i + ln])
            i += ln
        scen.append(dl_scenario(d, fb, ng, mix, chunks, bs, "random-dl"))
    # a delay shorter than one frame (known defect class): D = 0 exactly and half a frame
    for sub in (0, 1):
        for mix in (0, 1):
            scen.append(dl_scenario(0, 1, 1, mix, [[1, 2], [3]], 4, "random-dl", sub=sub))
    return scen


# ----------------------------------------------------------------------------- B: law scenarios

def svf_memory(g, k, n):
    return min(n, (g + 1.0 / g) * (k + 1.0 / k)) + 1


def svf_allowance(tm, a):
    return int(min(math.ceil((2 * math.sqrt(8 * tm) + 0.25 * tm) * a), 1 << 30))


def conditioning(fx, sr, n):
    """K: allowance of the linearity laws in multiples of 11e-7 * mag (random part 2 sqrt(R Tm) A + systematic part).

    T(x) computed in f32 = L(x) + e(x) with L linear.  Each of the R roundings per frame that enter the recursion
    perturbs a value of magnitude <= S by at most 2^-24 S (std 2^-24 S / sqrt 12); a perturbation persists for Tm
    frames (memory of the recursion); independent perturbations add in quadrature: |e| ~ 2^-24 S sqrt(R Tm / 12).
    The residual T(a+b) - T(a) - T(b) holds three such errors; eight standard deviations are
    8 sqrt(3/12) 2^-24 S sqrt(R Tm) = 4 * 2^-24 * S sqrt(R Tm) = 0.22 * (11e-7) * S sqrt(R Tm).
    With S <= A * mag the allowance is 0.22 sqrt(R Tm) A units; the constant used is 2 (nine times that), which
    covers the crude Tm and A below.  For deterministic inputs (DC, steps) the roundings are not independent: the state
    settles where every step rounds the same way, and the errors add linearly, at worst R Tm 2^-25 S per run
    (= 0.08 R Tm units for three runs); measured on ill-conditioned EQ settings with DC/step inputs the residual reaches
    0.55 * 2^-24 * Tm * mag = 0.03 Tm units, the allowance adds 0.25 Tm A (eight times the measured figure).
    So for the state-variable filters K = ceil((2 sqrt(8 Tm) + 0.25 Tm) A).  Tm and A per effect:
      volume/panning  memoryless: R = 3, Tm = 1, A = 1
      filter          trapezoidal SVF: g = tan(pi clamp(fc/sr, 1e-4, 0.5)), k = 2 - 1.9 clamp(res, 0, 1);
                      slowest mode decays over (g + 1/g)(k + 1/k) frames (capped by the run length);
                      states reach (1 + 1/k) times the signal; R = 8
      EQ filter       same structure with a = 10^(gain/40) and g, k as in the cited Cytomic paper (bell: k = 1/(q a);
                      low shelf g/sqrt a, high shelf g sqrt a, k = 1/q); output taps up to max(1, a^2)
    Feedback loops around a long delay (delay, reverb combs) are different: with loop gain 1 nothing decays, and for
    deterministic inputs (DC, steps) the roundings of successive passes have the same sign, so the errors add linearly
    in the number of passes P instead of in quadrature: |e| <= R P 2^-25 S per run, three runs = 0.08 R P units; the
    constant used is 0.25 R P (three times that) on top of the memoryless part:
      reverb          P = min(n / shortest comb length, 1/(1 - feedback)), R = 6 (comb and its damping filter):
                      K = ceil(2 sqrt(30) + 1.5 P)
      delay           P = min(n / D, 1/(1 - 10^(fb/20))), R = 2: K = ceil((4 + 0.5 P) * A); a nested effect multiplies A by its K"""
    t = fx["t"]
    if t in ("vol", "pan"):
        R, T, A = 3, 1, 1
    elif t == "filter":
        r = min(max(fx["cutoff"] / sr, 0.0001), 0.5)
        g = math.tan(math.pi * r)
        k = 2 - 1.9 * min(max(fx["res"], 0.0), 1.0)
        return svf_allowance(svf_memory(g, k, n), 1 + 1 / k)
    elif t == "eq":
        r = min(max(fx["freq"] / sr, 0.0001), 0.5)
        a = 10 ** (fx["gain"] / 40)
        q = max(fx["q"], 0.01)
        g = math.tan(math.pi * r)
        if fx["kind"] == 0:
            k = 1 / (q * a)
        elif fx["kind"] == 1:
            g, k = g / math.sqrt(a), 1 / q
        else:
            g, k = g * math.sqrt(a), 1 / q
        return svf_allowance(svf_memory(g, k, n), (1 + 1 / k) * max(a * a, 1.0))
    elif t == "reverb":
        ln = max(1, int(1116 * sr / 44100))
        fb = min(max(fx["fb"], 0.0), 1.0)
        passes = min(n / ln, 1 / (1 - fb) if fb < 1 else 1e18)
        return int(min(math.ceil(2 * math.sqrt(3 * 10) + 0.25 * 6 * passes), 1 << 30))
    elif t == "delay":
        d = max(1, int(fx["time_ns"] * 1e-9 * sr))
        gfb = 10 ** (min(fx["fb"], 0.0) / 20) if fx["fb"] > -60 else 0.0
        passes, A = min(n / d, 1 / (1 - gfb) if gfb < 1 else 1e18), 1
        for nf in fx.get("nested", []):
            kn = conditioning(nf, sr, n)
            if kn is None:
                return None
            A *= kn
        return int(min(math.ceil((2 * math.sqrt(2 * 2) + 0.25 * 2 * passes) * A), 1 << 30))
    else:
        return None                                            # compressor, distortion: not linear
    return int(min(math.ceil(2 * math.sqrt(R * T) * A), 1 << 30))


def pick(rng, edges, rand, p_edge=0.6):
    return rng.choice(edges) if rng.random() < p_edge else rand()


def gen_fx(rng, t, sr, nested_ok=True):
    """(fx, fx_dry, description); parameters boundary-biased over the documented ranges"""
    logu = lambda lo, hi: math.exp(rng.uniform(math.log(lo), math.log(hi)))
    mix = lambda: pick(rng, [1.0, 0.5, 0.25, 0.75, 0.0, 1.5, -0.5], lambda: round(rng.random(), 3), 0.7)
    if t == "filter":
        ratio = pick(rng, [0.0, 1e-5, 1e-4, 1e-3, 0.01, 0.1, 0.25, 0.49, 0.5, 0.75], lambda: logu(1e-4, 0.5))
        fx = {"t": "filter", "mode": rng.randrange(4), "cutoff": ratio * sr,
              "res": pick(rng, [0.0, 0.5, 0.9, 1.0, 1.5, -0.5], rng.random), "mix": mix()}
        return fx, dict(fx, mix=0.0), "filter mode=%d cutoff/sr=%.5g res=%.3g mix=%.3g" % (fx["mode"], ratio, fx["res"], fx["mix"])
    if t == "eq":
        ratio = pick(rng, [0.0, 1e-4, 1e-3, 0.01, 0.1, 0.25, 0.49, 0.5, 0.75], lambda: logu(1e-4, 0.5))
        fx = {"t": "eq", "kind": rng.randrange(3), "freq": ratio * sr,
              "gain": pick(rng, [-60.0, -24.0, -6.0, -0.5, 0.0, 0.5, 6.0, 12.0, 24.0], lambda: round(rng.uniform(-30, 24), 2)),
              "q": pick(rng, [0.001, 0.01, 0.1, 0.707, 1.0, 4.0, 10.0, 100.0], lambda: logu(0.01, 100))}
        return fx, dict(fx, gain=0.0), "eq kind=%d freq/sr=%.5g gain=%.4g q=%.4g" % (fx["kind"], ratio, fx["gain"], fx["q"])
    if t == "delay":
        frames = pick(rng, [1, 2, 3, 7, 64, 441], lambda: rng.randrange(1, 2000))
        fx = {"t": "delay", "time_ns": int((frames + 0.5) * 1e9 / sr),
              "fb": pick(rng, [-60.0, -80.0, -24.0, -12.0, -6.0, -3.0, -1.0, 0.0], lambda: round(rng.uniform(-40, 0), 2)),
              "mix": mix(), "nested": []}
        desc = "delay frames=%d fb=%.4g mix=%.3g" % (frames, fx["fb"], fx["mix"])
        if nested_ok and rng.random() < 0.45:
            nt = rng.choice(["filter", "vol", "pan", "eq", "reverb", "delay", "dist", "comp"])
            nfx, _, nd = gen_fx(rng, nt, sr, nested_ok=False)
            # keep the loop gain below one: nothing that amplifies inside the loop, outer feedback <= -12 dB
            if nt == "filter":
                nfx["res"], nfx["mode"] = 0.0, rng.choice([0, 2])
            elif nt == "eq":
                nfx["gain"] = -abs(nfx["gain"])
                nfx["q"] = min(nfx["q"], 4.0)
            elif nt == "vol":
                nfx["db"] = -abs(nfx["db"])
            elif nt == "reverb":
                nfx["fb"], nfx["mix"] = min(nfx["fb"], 0.5), min(max(nfx["mix"], 0.0), 0.5)
            elif nt == "delay":
                nfx["fb"] = min(nfx["fb"], -12.0)
            elif nt == "dist":
                nfx["drive"] = max(nfx["drive"], 0.0)
            elif nt == "comp":
                nfx["ratio"], nfx["makeup"] = max(nfx["ratio"], 1.0), min(nfx["makeup"], 0.0)
            fx["nested"] = [nfx]
            fx["fb"] = min(fx["fb"], -12.0)
            desc += " nested[" + nfx["t"] + "]"
        return fx, dict(fx, mix=0.0), desc
    if t == "reverb":
        fx = {"t": "reverb", "fb": pick(rng, [0.0, 0.5, 0.9, 0.99, 1.0], rng.random),
              "damp": pick(rng, [0.0, 0.1, 0.5, 1.0], rng.random),
              "width": pick(rng, [0.0, 0.5, 1.0], rng.random), "mix": mix()}
        return fx, dict(fx, mix=0.0), "reverb fb=%.3g damp=%.3g width=%.3g mix=%.3g" % (fx["fb"], fx["damp"], fx["width"], fx["mix"])
    if t == "comp":
        th = rng.choice([-60.0, -40.0, -24.0, -12.0, -6.0, 0.0, 6.0])
        # 1e38: about the largest f32; 1e300: the driver's code for an infinite ratio (a limiter)
        ratio = rng.choice([0.5, 1.0, 2.0, 4.0, 20.0, 1e6, 1e38, 1e300] + ([0.25] if th >= -24 else []))
        fx = {"t": "comp", "th": th, "ratio": ratio, "att_ns": rng.choice([0, 100000, 10000000, 1000000000]),
              "rel_ns": rng.choice([0, 1000000, 100000000, 5000000000]), "makeup": rng.choice([-12.0, 0.0, 6.0, 24.0]), "mix": mix()}
        return fx, dict(fx, mix=0.0), "comp th=%g ratio=%g att=%dns rel=%dns makeup=%g mix=%.3g" % (
            th, ratio, fx["att_ns"], fx["rel_ns"], fx["makeup"], fx["mix"])
    if t == "dist":
        fx = {"t": "dist", "kind": rng.randrange(2), "drive": pick(rng, [-59.0, -24.0, -6.0, 0.0, 6.0, 24.0, 48.0], lambda: round(rng.uniform(-50, 48), 2)),
              "mix": mix()}
        # neutral settings: mix 0 for both kinds; for the hard clipper also 0 dB drive, fully wet (inputs stay within full scale)
        dry = {"t": "dist", "kind": 0, "drive": 0.0, "mix": 1.0} if fx["kind"] == 0 and rng.random() < 0.6 else dict(fx, mix=0.0)
        return fx, dry, "dist kind=%d drive=%.4g mix=%.3g" % (fx["kind"], fx["drive"], fx["mix"])
    if t == "vol":
        fx = {"t": "vol", "db": pick(rng, [-100.0, -60.0, -59.9, -40.0, -12.0, -6.0, -1.0, 0.0, 3.0, 12.0], lambda: round(rng.uniform(-60, 12), 2))}
        return fx, {"t": "vol", "db": 0.0}, "vol db=%.4g" % fx["db"]
    if t == "pan":
        fx = {"t": "pan", "p": pick(rng, [-1.0, -0.5, -0.01, 0.0, 0.25, 1.0, 1.5, -2.0], lambda: round(rng.uniform(-1, 1), 3))}
        return fx, {"t": "pan", "p": 0.0}, "pan p=%.4g" % fx["p"]
    raise ValueError(t)


LINEAR = {"filter", "eq", "delay", "reverb", "vol", "pan"}
TYPES = ["filter", "eq", "delay", "reverb", "comp", "dist", "vol", "pan"]


def is_linear(fx):
    return fx["t"] in LINEAR and all(is_linear(n) for n in fx.get("nested", []))


def law_scenario(rng, t, n, src, cls="normal", fx_over=None):
    sr = rng.choice(RATES)
    fx, dry, desc = gen_fx(rng, t, sr)
    if fx_over:
        fx, dry, desc = fx_over(fx, dry, desc, sr)
    bs = rng.choice([1, 3, 4, 16, 64, 128, 512]) if n < 50000 else rng.choice([64, 128, 512])
    sig = lambda kinds: {"k": rng.choice(kinds), "seed": rng.randrange(1 << 48), "amp": rng.choice([1.0, 1.0, 0.5, 0.5, 0.25, 2.0 ** -10])}
    lin = is_linear(fx)
    k = conditioning(fx, sr, n) if lin else None
    laws = ["dry", "silence", "finite", "finite_after_rate_change", "split"]
    if lin and k is not None and k <= KMAX:
        laws += ["superpose", "scale"]
    p2 = rng.choice([{"k": "rand", "seed": rng.randrange(1 << 40)}, {"k": "rand", "seed": rng.randrange(1 << 40)},
                     {"k": "ones"}, {"k": "ramp"}, {"k": "fixed", "len": rng.randrange(1, bs + 1)}])
    if n >= 50000 and p2["k"] == "ones":
        p2 = {"k": "ramp"}
    return {"kind": "law", "fx": fx, "fx_dry": dry, "lin": lin, "k": k if k is not None and k <= KMAX else 1, "sr": sr, "n": n, "bs": bs,
            "a": sig(["noise", "sine", "step", "burst", "full", "impulse", "dc", "denorm"]),
            "b": sig(["noise", "sine", "dc", "impulse", "denorm", "step"]),
            "c": [rng.choice([-1, 2, -2, 3, -3, 5, -5, 7, 12]), rng.choice([1, 2, 4, 8])],
            "p1": {"k": "fixed", "len": bs}, "p2": p2, "laws": laws, "cls": cls, "par": desc + " sr=%d" % sr, "src": src}


def gen_laws(rng, tier):
    scen = []
    per = 120 if tier == "quick" else 2500
    for t in TYPES:
        for _ in range(per):
            n = rng.choice([1, 2, 3, 5, 8, 17, 32, 33, 100, 257, 1000, 4096])
            scen.append(law_scenario(rng, t, n, "seeded"))
    # long runs at the edges of the parameter ranges (finite in => finite out, no drift between partitions)
    long_n = 100000 if tier == "quick" else 1000000
    for t in TYPES:
        for _ in range(1 if tier == "quick" else 5):
            s = law_scenario(rng, t, long_n, "long")
            s["a"]["k"] = rng.choice(["full", "noise", "dc", "step"])
            s["a"]["amp"] = 1.0
            scen.append(s)
    edge = [
        ("filter", {"mode": 1, "cutoff": 0.0, "res": 1.0, "mix": 1.0}), ("filter", {"mode": 0, "cutoff": 1e9, "res": 1.0, "mix": 1.0}),
        ("eq", {"kind": 0, "freq": 1e9, "gain": 24.0, "q": 100.0}), ("eq", {"kind": 2, "freq": 0.0, "gain": -60.0, "q": 0.001}),
        ("reverb", {"fb": 1.0, "damp": 0.0, "width": 1.0, "mix": 1.0}), ("reverb", {"fb": 1.0, "damp": 1.0, "width": 0.0, "mix": 0.5}),
        ("delay", {"fb": 0.0, "mix": 1.0, "nested": []}), ("comp", {"th": -24.0, "ratio": 0.25, "att_ns": 0, "rel_ns": 0, "makeup": 24.0, "mix": 1.0}),
        ("dist", {"kind": 1, "drive": 48.0, "mix": 1.0}), ("vol", {"db": 12.0}), ("pan", {"p": 1.0}),
        # a limiter: infinite ratio (1e300 is the driver's code for it), wet and half wet; the same with the largest f32
        ("comp", {"th": -24.0, "ratio": 1e300, "att_ns": 0, "rel_ns": 1000000, "makeup": 0.0, "mix": 1.0}),
        ("comp", {"th": -12.0, "ratio": 1e300, "att_ns": 100000, "rel_ns": 0, "makeup": 6.0, "mix": 0.5}),
        ("comp", {"th": -24.0, "ratio": 1e38, "att_ns": 0, "rel_ns": 0, "makeup": 0.0, "mix": 1.0}),
    ]
    for t, over in edge:
        def fo(fx, dry, desc, sr, over=over):
            fx = dict(fx, **over)
            dry = dict(dry, **{k: v for k, v in over.items() if k not in ("mix", "gain", "db", "p", "drive", "kind")})
            return fx, dry, "edge %s %s" % (fx["t"], json.dumps(over, sort_keys=True))
        s = law_scenario(rng, t, long_n, "edge", fx_over=fo)
        s["a"]["k"], s["a"]["amp"] = rng.choice(["full", "dc", "noise"]), 1.0
        scen.append(s)
    # directed: a delay with a stateful effect in its feedback loop, fed with an impulse (long stretches of exact silence), one
    # frame at a time against whole buffers - what the nested effect does must not depend on where the slices fall
    for nested in ({"t": "filter", "mode": 0, "cutoff": 1000.0, "res": 0.3, "mix": 1.0},
                   {"t": "delay", "time_ns": 2000000, "fb": -6.0, "mix": 0.5, "nested": []},
                   {"t": "reverb", "fb": 0.6, "damp": 0.3, "width": 1.0, "mix": 0.5},
                   {"t": "eq", "kind": 0, "freq": 800.0, "gain": 6.0, "q": 1.0}):
        for sig_kind in ("impulse", "burst"):
            fx = {"t": "delay", "time_ns": 10000000, "fb": -6.0, "mix": 0.5, "nested": [nested]}
            scen.append({"kind": "law", "fx": fx, "fx_dry": dict(fx, mix=0.0), "lin": True, "k": 1, "sr": 8000, "n": 1000, "bs": 128,
                         "a": {"k": sig_kind, "seed": 11, "amp": 1.0}, "b": {"k": "noise", "seed": 12, "amp": 0.5}, "c": [2, 1],
                         "p1": {"k": "fixed", "len": 128}, "p2": {"k": "ones"}, "laws": ["finite", "split"], "cls": "normal",
                         "par": "directed delay 10 ms nested[%s] %s" % (nested["t"], sig_kind), "src": "directed-nested"})
    return scen


def gen_defect_classes(rng):
    scen = []
    for tns in (0, None):
        for n in (1, 16):
            def fo(fx, dry, desc, sr, tns=tns):
                t = 0 if tns == 0 else int(0.4e9 / sr)
                fx = dict(fx, time_ns=t, nested=[])
                return fx, dict(fx, mix=0.0), "delay time_ns=%d (shorter than one frame)" % t
            s = law_scenario(rng, "delay", n, "defect-class", cls="subframe_delay", fx_over=fo)
            s["laws"] = ["finite", "finite_after_rate_change", "silence", "dry", "split"]
            scen.append(s)
    for drive in (-60.0, -61.0, -100.0):
        for kind in (0, 1):
            def fo(fx, dry, desc, sr, drive=drive, kind=kind):
                fx = dict(fx, drive=drive, kind=kind)
                return fx, dict(fx, mix=0.0), "dist kind=%d drive=%g (silent drive)" % (kind, drive)
            s = law_scenario(rng, "dist", 16, "defect-class", cls="drive_silent", fx_over=fo)
            s["laws"] = ["finite", "finite_after_rate_change", "silence", "dry", "split"]
            scen.append(s)
    return scen


# ----------------------------------------------------------------------------- validation

def validate(trace_path, timeout=3000):
    cfg = write_cfg("T_C13.cfg", "SPECIFICATION TSpec\nCONSTANT SubFramePanics = %s\nINVARIANT Report\nCHECK_DEADLOCK FALSE\n"
                    % ("TRUE" if SUBFRAME_PANICS else "FALSE"))
    out = tlc_raw("T_C13.tla", cfg, workers=1, timeout=timeout, tag="c13tv", env={"TRACE": trace_path},
                  java_opts="-Xss1g -Dtlc2.tool.queue.IStateQueue=StateDeque")
    bad, drift, consumed = [], [], None
    for line in out.splitlines():
        line = line.strip()
        m = re.match(r'^<<"(BADEV|DRIFTEV)", "(.*)">>$', line)
        if m:
            (bad if m.group(1) == "BADEV" else drift).append(json.loads(json.loads('"' + m.group(2) + '"')))
        m = re.match(r'^<<"CONSUMED", (\d+), (\d+), (\d+), (\d+)>>$', line)
        if m:
            consumed = tuple(int(x) for x in m.groups())
    if consumed is None or consumed[0] != consumed[1] or "Error:" in out or consumed[2] != len(bad) or consumed[3] != len(drift):
        raise ToolError("trace validation did not complete for %s: %s" % (trace_path, out[-2500:]))
    return bad, drift, consumed[0]


def validate_parts(tp, parts=4):
    """split the trace at session boundaries and validate the pieces side by side"""
    lines = open(tp).read().splitlines()
    starts = [i for i, l in enumerate(lines) if '"a":"reset"' in l]
    if len(starts) < 2 * parts:
        return validate(tp)
    cuts = [starts[len(starts) * k // parts] for k in range(parts)] + [len(lines)]
    paths = []
    for k in range(parts):
        p = "%s.part%d" % (tp, k)
        open(p, "w").write("\n".join(lines[cuts[k]:cuts[k + 1]]) + "\n")
        paths.append(p)
    try:
        with ThreadPoolExecutor(max_workers=parts) as ex:
            rs = list(ex.map(validate, paths))
    finally:
        for p in paths:
            if os.path.exists(p):
                os.remove(p)
    bad = [b for r in rs for b in r[0]]
    drift = [d for r in rs for d in r[1]]
    return bad, drift, sum(r[2] for r in rs)


def run(tier):
    res = Result(PROP, tier, "other")
    rng = random.Random(seed())
    build_harness()
    with ThreadPoolExecutor(max_workers=2) as ex:
        mc = ex.submit(model_check, res, tier)
        gen = ex.submit(gen_delayline, tier, random.Random(seed()))
        scen_dl = gen.result()
        mc.result()
    n_tlc = len(scen_dl)
    log("model checking and behaviour generation done at %.0fs" % (time.time() - res.t0))
    scen_dl += gen_dl_random(rng, 300 if tier == "quick" else 3000)
    scen_law = gen_laws(rng, tier) + gen_defect_classes(rng)
    scen = scen_dl + scen_law

    known_ids = {k.get("id") for k in load_known() if k.get("property") == PROP}
    pending = {c for c, i in DEFECT_CLASSES.items() if i not in known_ids}

    sp = os.path.join(OUT, "c13", "scen.ndjson")
    tp = os.path.join(OUT, "c13", "trace.ndjson")
    write_ndjson(sp, [{k: v for k, v in s.items() if k != "exp"} for s in scen])
    run_kv("c13", sp, tp, timeout=3000)
    log("%d sessions executed on the real effects at %.0fs" % (len(scen), time.time() - res.t0))
    bad, drift, n_events = validate_parts(tp)
    log("%d events validated by TLC at %.0fs" % (n_events, time.time() - res.t0))
    if any(b["reason"] == "harness_malformed" for b in bad):
        raise ToolError("malformed observation: %s" % [b for b in bad if b["reason"] == "harness_malformed"][:3])

    # one rejection per session (the first); defect classes not yet recorded in known_findings.json are reported, not judged
    first, pend = {}, {}
    for b in sorted(bad, key=lambda b: (b["s"], b["i"])):
        cls = scen[b["s"] - 1].get("cls", "normal")
        if cls in pending:
            pend.setdefault(cls, []).append(b)
        else:
            first.setdefault(b["s"], b)
    judge(res, PROP, scen, tp, list(first.values()))
    for cls, bs in sorted(pend.items()):
        log("PENDING-FINDING property=%s class=%s (%s, DESIGN.md 9): %d rejected observations in %d sessions, e.g. %s - "
            "not judged until known_findings.json has an entry %s for %s" % (
                PROP, cls, DEFECT_CLASSES[cls], len(bs), len({b["s"] for b in bs}), json.dumps(bs[0]), DEFECT_CLASSES[cls], PROP))
    res.notes["pending_finding_classes"] = {c: {"id": DEFECT_CLASSES[c], "rejections": len(b), "reasons": sorted({x["reason"] for x in b})}
                                            for c, b in pend.items()}
    for d in drift:
        cls = scen[d["s"] - 1].get("cls", "normal")
        res.drift.append({"session": d["s"], "event": d["i"], "action": d["a"], "differs": d["what"], "class": cls})

    # evidence
    trace = read_ndjson(tp)
    res.evaluations = sum(1 for e in trace if e["a"] != "reset")
    cur, worst, devs = None, 0.0, []
    for e in trace:
        if e["a"] == "reset":
            cur = e
            continue
        res.distinct.add(behaviour_hash([{k: v for k, v in cur.items() if k not in ("s", "i")}, {k: v for k, v in e.items() if k not in ("s", "i")}]))
        if e["a"] in ("superpose", "scale") and not e["p"]:
            k = scen[e["s"] - 1]["k"]
            worst = max(worst, e["dev"] / (11.0 * k))
            devs.append(e["dev"])
    res.notes["delayline_behaviours_from_tlc"] = n_tlc
    res.notes["delayline_sessions_seeded"] = len(scen_dl) - n_tlc
    res.notes["law_sessions"] = len(scen_law)
    res.notes["law_sessions_by_effect"] = {t: sum(1 for s in scen_law if s["fx"]["t"] == t) for t in TYPES}
    res.notes["law_sessions_with_nested_effect"] = sum(1 for s in scen_law if s["fx"].get("nested"))
    res.notes["linearity_sessions"] = sum(1 for s in scen_law if "superpose" in s["laws"])
    res.notes["linearity_skipped_ill_conditioned"] = sum(1 for s in scen_law if s["lin"] and "superpose" not in s["laws"])
    res.notes["linearity_worst_deviation_over_tolerance"] = round(worst, 4)
    res.notes["longest_run_frames"] = max(s["n"] for s in scen_law)
    res.notes["rejections_total"] = len(bad)
    by = {}
    for b in bad:
        by["%s/%s" % (b["a"], b["reason"])] = by.get("%s/%s" % (b["a"], b["reason"]), 0) + 1
    res.notes["rejections_by_action_and_clause"] = by
    pick_ = [scen[0], scen[n_tlc // 2], scen_law[0], scen_law[len(scen_law) // 2]]
    res.samples = [{k: v for k, v in s.items() if k != "exp"} for s in pick_]
    res.assumptions = [
        "f32 arithmetic on the integer/256 samples of the delay-line replays is exact (the driver flags any output that is not on the grid)",
        "whole-run digests (counts and largest deviation) are computed by the driver in f64 from the f32 outputs; TLC sees them and the first/last 32 frames of every run",
        "linearity tolerance 11e-7 * mag * K with K from checks/c13.py conditioning(); sessions with K > %d are not checked for linearity" % KMAX,
        "effect parameters are constant during a run; dt = 1/sample_rate; slices never exceed the internal buffer size"]
    return res.finish(
        "evaluation = one recorded observation (a process call of a delay-line replay, or one law evaluated on a pair/triple of "
        "runs of a real effect); distinct by hash of (session constants, observation); all are non-trivial",
        explanation="Part A (DelayLine) is a genuine model: `states` counts its exhaustive exploration and the replays are every "
                    "behaviour TLC generated. Part B is law checking over recorded runs: TLC evaluates the laws, it explores "
                    "nothing; the quantifier over parameters/signals/partitions is sampled with seeded, boundary-biased generators.")


def selftest_corruption(trace_path=None):
    """binding demonstration: corrupt single observations of a recorded trace; T_C13 must reject exactly those events.
    Returns a list of (what, session, event, expected clause, rejected?)."""
    tp = trace_path or os.path.join(OUT, "c13", "trace.ndjson")
    trace = read_ndjson(tp)
    cfg_of, plan = {}, []

    def first(pred):
        for k, e in enumerate(trace):
            if e["a"] == "reset":
                cfg_of[e["s"]] = e
            elif cfg_of.get(e["s"], {}).get("cls") == "normal" and pred(cfg_of[e["s"]], e):
                return k
        raise ToolError("selftest: no event to corrupt")

    def corrupt(what, pred, change, clause):
        k = first(pred)
        change(trace[k])
        plan.append((what, trace[k]["s"], trace[k]["i"], clause))

    corrupt("delay-line output sample +1 (wet session)", lambda c, e: e["a"] == "proc" and c["mix"] == 1 and c["d"] == 2 and e["i"] == 3,
            lambda e: e["y"].__setitem__(0, e["y"][0] + 1), "echo_definition")
    corrupt("delay-line output sample (dry session)", lambda c, e: e["a"] == "proc" and c["mix"] == 0 and c["d"] == 3 and e["i"] == 2,
            lambda e: e["yr"].__setitem__(0, e["yr"][0] - 1), "dry_is_identity")
    corrupt("dry law: one window sample off by one unit", lambda c, e: e["a"] == "dry" and len(e["wy"]) > 4 and c["fx"] == "filter",
            lambda e: e["wy"].__setitem__(3, e["wy"][3] + 1), "dry_is_identity")
    corrupt("silence law: one non-zero sample counted", lambda c, e: e["a"] == "silence" and c["fx"] == "reverb",
            lambda e: e.__setitem__("nz", 1), "silence_stays_silent")
    corrupt("finite law: one non-finite sample counted", lambda c, e: e["a"] == "finite" and c["fx"] == "comp",
            lambda e: e.__setitem__("nf", 1), "finite_in_finite_out")
    corrupt("split law: one differing sample counted", lambda c, e: e["a"] == "split" and c["fx"] == "eq",
            lambda e: e.__setitem__("nd", 1), "split_independent")
    corrupt("split law: window sample of the second partition off by one unit", lambda c, e: e["a"] == "split" and c["fx"] == "delay" and len(e["w2"]) > 2,
            lambda e: e["w2"].__setitem__(1, e["w2"][1] + 1), "split_independent")
    corrupt("superposition: deviation just above the tolerance", lambda c, e: e["a"] == "superpose" and c["fx"] == "filter",
            lambda e: e.__setitem__("dev", 11 * cfg_of[e["s"]]["k"] + 1), "superposition")
    corrupt("scaling: window sample of T(c a) moved by 100000 units", lambda c, e: e["a"] == "scale" and c["fx"] == "vol" and c["k"] < 10 and len(e["wca"]) > 0,
            lambda e: e["wca"].__setitem__(0, e["wca"][0] + 100000), "scaling")
    cp = os.path.join(OUT, "c13", "trace_corrupted.ndjson")
    write_ndjson(cp, trace)
    bad, _, _ = validate(cp)
    got = {(b["s"], b["i"]): b["reason"] for b in bad if cfg_of.get(b["s"], {}).get("cls") == "normal"}
    rows = [(what, s, i, clause, got.get((s, i)) == clause) for what, s, i, clause in plan]
    extra = [k for k in got if k not in {(s, i) for _, s, i, _ in plan}]
    # a corrupted process call of a delay-line session also spoils the history of the rest of that session: those are expected
    extra = [k for k in extra if not any(k[0] == s for _, s, _, cl in plan if cl in ("echo_definition", "dry_is_identity"))]
    return rows, extra
