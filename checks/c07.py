"""C07 - handle commands reach the audio thread exactly once; last write wins; none torn.

1. TLC model-checks Commands.tla - kira's CommandWriter/CommandReader over triple_buffer at the
   granularity of single shared-memory accesses (two-word values, so tearing would show) - against
   the interval-based channel monitor of P_C07, for every interleaving of <= MaxW writes and MaxR reads.
2. Two real threads hammer one real command_writer_and_reader pair; operations are stamped from one
   global sequence counter and TLC validates the recorded history against the same channel monitor.
3. TLC enumerates write/callback histories (Gen_Handles.tla) over the keys of small scenes; they are
   executed on real handles (main/sub-track/sound volumes, sound/track pause+resume, clock start/pause,
   tweener set through a linked parameter, seek_to/seek_by) and every callback's decoded effect is
   validated by TLC against the handle monitor of P_C07."""
import os
import random

from lib.kvlib import *

PROP = "C07"
MANIFEST = dict(
    level="model_checking", design_ref="DESIGN.md 8 (C07), 7 (Commands), Appendix A.3",
    technique="TLA+ model of the triple-buffer command channel at atomic-access granularity (TLC, all interleavings) + two-thread stress recording validated by TLC against the same interval monitor + TLC-enumerated write/callback histories replayed on real handles and validated against the handle monitor + TLA+ model of the streaming-seek protocol (StreamSeek.tla: decoder thread, frame ring, reached_end, seek slot; safety + liveness, two failing designs as witnesses) bound by the late-seek / slow-decoder sessions of scene T",
    text="The command channel every handle uses is model-checked for all interleavings of writer and reader steps (two-word values; exactly-once, newest-wins, not-lost, not-torn as an interval/linearizability monitor); the same monitor validates histories recorded from two real threads on the real primitive. At handle level TLC enumerates all histories of bursts of writes to several keys and callbacks up to a depth bound; the harness executes them on real handles and decodes the value in force after each callback (exact dB levels, states, clock ticking, modulator-linked volume, seek displacement). Seek bursts include a last seek_by of zero.",
    note="Sub-operation interleavings inside triple_buffer cannot be forced on the real code (dependency without yield points): they are covered by the model and sampled by the two-thread stress run. Handle-level histories are unraced (commands are written between callbacks). Not every setter of every handle type is decoded: covered keys are main/sub-track/static/streaming volume, sound and track pause/resume, clock start/pause, tweener set, static seek_to/seek_by; different command kinds acting on the same observable are not mixed within one inter-callback window (order unspecified).")


def write_cfg(name, text):
    p = os.path.join(OUT, "cfg", name)
    os.makedirs(os.path.dirname(p), exist_ok=True)
    open(p, "w").write(text)
    return p


def model_check(res, tier):
    w, r = (4, 4) if tier == "quick" else (6, 6)
    cfg = write_cfg("Commands.cfg", "SPECIFICATION Spec\nCONSTANTS\n  MaxW = %d\n  MaxR = %d\nVIEW View\nINVARIANTS PropertyHolds Exclusive\nCHECK_DEADLOCK FALSE\n" % (w, r))
    st = tlc_check("MC_Commands.tla", cfg, workers=8, timeout=3000, tag="c07mc")
    if st["violated"]:
        res.drift.append({"model": "Commands", "violated": st["violated"]})
    res.add_mc("Commands writes<=%d reads<=%d" % (w, r), st)
    for wn in ("W_Overwrite", "W_Race"):
        c = write_cfg("Commands_%s.cfg" % wn, "SPECIFICATION Spec\nCONSTANTS\n  MaxW = 3\n  MaxR = 3\nVIEW View\nINVARIANT %s\nCHECK_DEADLOCK FALSE\n" % wn)
        tlc_check("MC_Commands.tla", c, workers=4, timeout=600, expect_violation=wn, tag="c07w")

    # who serves a seek on a streaming sound, and when may the sound stop (StreamSeek.tla): the code's protocol between decoder thread,
    # frame ring, reached_end and the seek slot - every interleaving of decoder passes, output frames and seek writes; the two designs
    # that must fail (thread ends with the last frame = kira before the D27 repair; reached_end left set after a late seek) do fail
    ss = "SPECIFICATION %s\nCONSTANTS\n  Len0 = %d\n  R = %d\n  Xs = {%s}\n  MaxSeeks = %d\n  FadeFrames = 3\n  Variant = \"%s\"\n%s\nCHECK_DEADLOCK FALSE\n"
    big = (8, 3, "1, 4, 8", 3) if tier == "quick" else (10, 4, "1, 4, 7, 10", 4)
    st = tlc_check("StreamSeek.tla", write_cfg("StreamSeek.cfg", ss % (("FairSpec",) + big + ("code", "INVARIANTS TypeOK PropertyHolds SeeksHaveAReader\nPROPERTIES SeekServed ThreadEnds SoundEnds"))),
                   workers=4, timeout=1800, tag="c07ss")
    if st["violated"]:
        res.drift.append({"model": "StreamSeek", "violated": st["violated"]})
    res.add_mc("StreamSeek (late seeks: reader, reached_end, stop) len=%d ring=%d seeks<=%d" % (big[0], big[1], big[3]), st)
    for var, inv in (("exit_at_end", "SeeksHaveAReader"), ("keep_flag", "PropertyHolds"), ("exit_on_stopping", "SeeksHaveAReader")):
        tlc_check("StreamSeek.tla", write_cfg("StreamSeek_%s.cfg" % var, ss % ("Spec", 6, 3, "1, 4", 2, var, "INVARIANTS " + inv)),
                  workers=2, timeout=600, expect_violation=inv, tag="c07ss")
    tlc_check("StreamSeek.tla", write_cfg("StreamSeek_idle_on_end_seek.cfg", ss % ("FairSpec", 6, 3, "1, 4, 6", 2, "idle_on_end_seek", "PROPERTIES SoundEnds")),
              workers=2, timeout=600, expect_violation="temporal", tag="c07ss")
    for wn in ("W_LateSeekServed", "W_StopsAfterLateSeek"):
        tlc_check("StreamSeek.tla", write_cfg("StreamSeek_%s.cfg" % wn, ss % ("Spec", 6, 3, "1, 4", 2, "code", "INVARIANT " + wn)),
                  workers=2, timeout=600, expect_violation=wn, tag="c07ss")


def generate(tier, rng):
    scen = []
    for k in range(12 if tier == "quick" else 200):
        scen.append({"mode": "chan", "writes": 150 if tier == "quick" else 400, "seed": seed() * 1000 + k, "src": "stress"})
    for scene, depth, maxw in (("V", 5, 3), ("L", 5, 3), ("M", 7, 3), ("P", 7, 3), ("D", 7, 2)):
        if tier == "thorough":
            depth += 1
        cfg = write_cfg("Gen_Handles_%s.cfg" % scene,
                        "SPECIFICATION Spec\nCONSTANTS\n  Scene = \"%s\"\n  D = %d\n  MaxW = %d\nCONSTRAINT Bound\nINVARIANT Dump\nCHECK_DEADLOCK FALSE\n" % (scene, depth, maxw))
        bs = tlc_generate("Gen_Handles.tla", cfg, "bfs", timeout=1500, tag="c07g")
        cap = 700 if tier == "quick" else 20000
        if len(bs) > cap:
            stride = len(bs) // cap + 1
            bs = bs[seed() % stride::stride]
        for b in bs:
            scen.append({"mode": "handles", "scene": scene, "src": "tlc-exhaustive", "steps": b})
    # scene T: seek_to on a streaming sound with a 48-frame ring (heard once the buffered frames have played); TLC-simulated
    # orders of writes and callbacks, then enough callbacks for the last seek to land
    cfg = write_cfg("Gen_StreamSeek.cfg", "SPECIFICATION Spec\nCONSTANTS\n  Xs = {8, 40, 72}\n  D = 26\n  MaxW = 3\nCONSTRAINT Bound\nINVARIANT Dump\nCHECK_DEADLOCK FALSE\n")
    for b in tlc_generate("Gen_StreamSeek.tla", cfg, "sim", num=40 if tier == "quick" else 1500, depth=27, timeout=900, tag="c07g"):
        scen.append({"mode": "handles", "scene": "T", "ring": 48, "len": 250, "src": "tlc-sim-stream-seek", "steps": b + [{"act": "Callback"}] * 16})
    # (defect D27, repaired) a seek written after the decoder thread has decoded the whole stream must still be applied -
    # at once for a stream shorter than the ring, during the last ring-full of frames otherwise
    scen.append({"mode": "handles", "scene": "T", "ring": 48, "len": 30, "src": "late-seek-after-decoding-ended",
                 "steps": [{"act": "Callback"}, {"act": "W", "key": "st.seek", "v": {"k": "abs", "x": 2}}] + [{"act": "Callback"}] * 10})
    scen.append({"mode": "handles", "scene": "T", "ring": 48, "len": 200, "src": "late-seek-after-decoding-ended",
                 "steps": [{"act": "Callback"}] * 40 + [{"act": "W", "key": "st.seek", "v": {"k": "abs", "x": 8}}] + [{"act": "Callback"}] * 16})
    # ... again and again: every seek below is written after the decoder has (once more) decoded the last frame
    cb = lambda n: [{"act": "Callback"}] * n
    sk = lambda x: [{"act": "W", "key": "st.seek", "v": {"k": "abs", "x": x}}]
    scen.append({"mode": "handles", "scene": "T", "ring": 48, "len": 100, "src": "late-seek-after-decoding-ended",
                 "steps": cb(16) + sk(8) + cb(18) + sk(40) + cb(10) + sk(72) + cb(5)})
    scen.append({"mode": "handles", "scene": "T", "ring": 48, "len": 60, "src": "late-seek-after-decoding-ended",
                 "steps": cb(6) + sk(24) + cb(6) + sk(8) + sk(40) + cb(15)})
    # ... and while the sound is fading out after a stop (Stopping: it is still advancing and its handle still takes seeks)
    scen.append({"mode": "handles", "scene": "T", "ring": 48, "len": 200, "stop_fade": True, "src": "late-seek-while-stopping",
                 "steps": cb(40) + sk(8) + cb(16)})
    scen.append({"mode": "handles", "scene": "T", "ring": 48, "len": 100, "stop_fade": True, "src": "late-seek-while-stopping",
                 "steps": cb(16) + sk(8) + cb(18) + sk(40) + cb(12)})
    scen.append({"mode": "handles", "scene": "T", "ring": 48, "len": 250, "stop_fade": True, "src": "seek-while-stopping",
                 "steps": cb(5) + sk(72) + cb(18) + sk(8) + cb(16)})
    # a seek to or beyond the end ends the sound - whether the decoder is still decoding when it reads it (long stream, small ring),
    # has already decoded everything, or was sought back before
    for ln, pre, x in ((250, 3, 250), (250, 10, 400), (4000, 6, 1000000), (60, 6, 60), (100, 16, 5000)):
        scen.append({"mode": "handles", "scene": "T", "ring": 48, "len": ln, "src": "seek-to-the-end", "steps": cb(pre) + sk(x) + cb(1)})
    scen.append({"mode": "handles", "scene": "T", "ring": 48, "len": 100, "src": "seek-to-the-end", "steps": cb(16) + sk(8) + cb(14) + sk(100) + cb(1)})
    # ... also when the decoder is slow to deliver what the late seek asks for and the ring runs dry meanwhile: the sound waits for
    # the audio (it has not reached its end), and the seek is heard once the decoder delivers
    for x, pre in ((8, 40), (24, 44), (96, 38)):
        scen.append({"mode": "handles", "scene": "T", "ring": 48, "len": 200, "hold": 16, "src": "late-seek-slow-decoder",
                     "steps": [{"act": "Callback"}] * pre + [{"act": "W", "key": "st.seek", "v": {"k": "abs", "x": x}}] + [{"act": "Callback"}] * 16})
    # seeks (jump key): seeded random, one kind per window, positions kept inside the sound
    for k in range(60 if tier == "quick" else 2000):
        steps, pos = [], 0
        for _ in range(rng.randint(3, 9)):
            if rng.random() < 0.6:
                kind = rng.choice(["abs", "rel"])
                for _ in range(rng.randint(1, 3)):
                    if kind == "abs":
                        x = rng.choice([8, 16, 24, 40, 64, 96])
                        npos = x
                    else:
                        x = rng.choice([8, 16, -8, 24, 0, 0])     # (0: a seek by nothing still supersedes what was written before it)
                        npos = pos + x
                    if not (0 <= npos <= 180):
                        continue
                    steps.append({"act": "W", "key": "s1.seek", "v": {"k": kind, "x": x}})
                    last = npos
                if steps and steps[-1]["act"] == "W":
                    pos = last
            steps.append({"act": "Callback"})
            pos += 4
            if rng.random() < 0.4:
                steps.append({"act": "Callback"})
                pos += 4
        scen.append({"mode": "handles", "scene": "S", "src": "random", "steps": steps})
    # longer random histories on the level scenes
    vals = {"main.vol": [0, -40], "s1.vol": [0, -20], "s2.vol": [0, -20], "t.vol": [0, -10], "m.set": [0, -20],
            "c.tick": ["on", "off"]}
    fam = {"p": ["Paused", "Pausing"], "r": ["Playing", "Resuming"]}
    for k in range(40 if tier == "quick" else 1500):
        scene = rng.choice(["V", "L", "M"])
        keys = {"V": ["main.vol", "s1.vol", "s2.vol", "t.vol"], "L": ["s1.run", "s2.run", "t.run", "c.tick"], "M": ["m.set"]}[scene]
        steps = []
        for _ in range(rng.randint(4, 14)):
            for key in keys:
                if rng.random() < 0.5:
                    f = rng.choice(["p", "r"])
                    for _ in range(rng.randint(1, 3)):
                        v = rng.choice(vals[key]) if key in vals else rng.choice(fam[f])
                        steps.append({"act": "W", "key": key, "v": v})
            steps.append({"act": "Callback"})
        scen.append({"mode": "handles", "scene": scene, "src": "random", "steps": steps})
    return scen


def drift_of(scen, sessions):
    out = []
    for k, sc in enumerate(scen):
        if sc.get("src") != "tlc-exhaustive":
            continue
        evs = [e for e in sessions.get(k + 1, []) if e["a"] in ("w", "cb")]
        for j, step in enumerate(sc["steps"]):
            if j >= len(evs):
                out.append({"session": k + 1, "step": j, "why": "real run ended early"})
                break
            if step["act"] == "Callback" and step["obs"] != evs[j].get("obs"):
                out.append({"session": k + 1, "scene": sc["scene"], "step": j, "model": step["obs"], "real": evs[j].get("obs")})
                break
    return out


def run(tier):
    res = Result(PROP, tier, "model_checking")
    rng = random.Random(seed())
    build_harness()
    model_check(res, tier)
    scen = generate(tier, rng)
    sp, tp = os.path.join(OUT, "c07", "scen.ndjson"), os.path.join(OUT, "c07", "trace.ndjson")
    write_ndjson(sp, scen)
    run_kv("c07", sp, tp)
    bad, _ = tlc_validate("T_C07.tla", os.path.join(SPEC, "T_C07.cfg"), tp)
    judge(res, PROP, scen, tp, bad)
    res.drift += drift_of(scen, sessions_of(read_ndjson(tp)))
    res.evaluations = len(scen)
    for sc in scen:
        if sc["mode"] == "chan":
            res.distinct.add(behaviour_hash(sc))
        elif any(s["act"] == "W" for s in sc["steps"]):
            res.distinct.add(behaviour_hash([sc["scene"], [(s["act"], s.get("key"), s.get("v")) for s in sc["steps"]]]))
    res.samples = [s if s["mode"] == "chan" else {"scene": s["scene"], "src": s["src"],
                   "steps": [[x["act"], x.get("key"), x.get("v")] for x in s["steps"]]} for s in scen[:1] + scen[20:21] + scen[-1:]]
    res.assumptions = ["triple_buffer's atomics provide the documented acquire/release exclusivity (modelled as sequentially consistent steps)",
                       "handle-level histories are unraced; values are chosen so that any stale, repeated or torn value decodes differently"]
    return res.finish("scenario = two-thread stress run of one command channel, or scene x history of writes/callbacks "
                      "(TLC-enumerated to depth 5-7 per scene, plus seeded random); distinct by hash; non-trivial = contains a write")
