"""C03 - sound playback states follow the documented life cycle; Stopped is final.

1. TLC model-checks Playback.tla (PlaybackStateManager + fade Parameter + start times + the sound's
   early-outs + removal of finished sounds) against the set-valued P_C03 monitor for every sequence
   of <= MaxCmd commands (pause/resume/resume_at{delayed,clock,missing clock}/stop x fade durations)
   placed at arbitrary callback boundaries.
2. TLC-generated behaviours (bounded exhaustive + simulation) and seeded random command histories are
   executed on real static AND streaming sounds through the manager/renderer.
3. TLC validates every recorded session against P_C03 (T_C03.tla)."""
import os
import random

from lib.kvlib import *

PROP = "C03"
MANIFEST = dict(
    level="model_checking", design_ref="DESIGN.md 8 (C03), 7 (Playback), Appendix A.2",
    technique="TLA+ model of the playback state machine (TLC, all command sequences up to a bound at all callback boundaries) checked against a set-valued property monitor; TLC behaviours replayed on real static and streaming sounds; TLC trace validation against P_C03",
    text="TLC explores every history of up to 3-4 life-cycle commands with fade durations {0,1,3} chunks and start times (delayed, clock, missing clock) interleaved with up to 7-9 callbacks, for looping and finite sounds, against the property-level monitor (legal successor states with the +-1 callback fade window, exact silence/unity at fade end, monotone gain, silence and frozen position while not advancing, Stopped final, unloading, finite sounds stop). Generated and random histories are run on the real static and streaming sound implementations and each recorded session is validated by TLC against the same monitor.",
    note="One callback = one internal chunk (4 frames at 8 Hz) so all times are exact. The statement leaves open the order of different-kind commands written between the same two callbacks and commands arriving during Stopping: every outcome is accepted there. Streaming sessions rely on a free-running decoder thread that is given time to fill its ring (not scheduled); 'starved' sessions use a decoder that hangs in decode() after 0 or 30 frames - there only the life-cycle clauses apply (the sound is silent whatever its state).")


def cfg(durs, waits, maxcmd, maxcb, finite, lenc, extra):
    return """SPECIFICATION %s
CONSTANTS
  Durs = {%s}
  Waits = {%s}
  MaxCmd = %d
  MaxCb = %d
  Finite = %s
  LenC = %d
  NF = 4
%s
CHECK_DEADLOCK FALSE
""" % ("GSpec" if "D =" in extra else "Spec", ", ".join(map(str, durs)), ", ".join(map(str, waits)), maxcmd, maxcb,
       "TRUE" if finite else "FALSE", lenc, extra)


def write_cfg(name, text):
    p = os.path.join(OUT, "cfg", name)
    os.makedirs(os.path.dirname(p), exist_ok=True)
    open(p, "w").write(text)
    return p


MCINV = "VIEW View\nINVARIANTS PropertyHolds FadeClassOK\nPROPERTY StoppedAbsorbing"


def model_check(res, tier):
    if tier == "quick":
        runs = [("loop", [0, 1, 3], [0, 1, 2], 3, 6, False, 3), ("finite", [0, 1, 2], [0, 2], 2, 7, True, 3)]
    else:
        # (bounds chosen so that the two runs finish in about half an hour on 8 workers)
        runs = [("loop", [0, 1, 2, 3], [0, 1, 2], 3, 8, False, 3), ("finite", [0, 1, 3], [0, 1, 2], 3, 8, True, 3)]
    for name, durs, waits, mc, mcb, fin, lenc in runs:
        st = tlc_check("MC_Playback.tla", write_cfg("Playback_%s.cfg" % name, cfg(durs, waits, mc, mcb, fin, lenc, MCINV)),
                       workers=8, timeout=6000, tag="c03mc")
        if st["violated"]:
            res.drift.append({"model": "Playback/" + name, "violated": st["violated"]})
        res.add_mc("Playback/%s durs=%s waits=%s cmds<=%d cb<=%d" % (name, durs, waits, mc, mcb), st)
    for w in ("W_Stopped", "W_Waiting", "W_Unloaded"):
        tlc_check("MC_Playback.tla", write_cfg("Playback_%s.cfg" % w, cfg([0, 1], [0, 2], 2, 5, True, 2, "VIEW View\nINVARIANT " + w)),
                  workers=4, timeout=600, expect_violation=w, tag="c03w")


def generate(tier, rng):
    scen = []
    num = 60 if tier == "quick" else 3000
    for fin in (False, True):
        base = cfg([0, 1, 2, 3], [0, 1, 2, 3], 5, 14, fin, 3, "  D = 16\nCONSTRAINT Bound\nINVARIANT Dump\n")
        bs = tlc_generate("Gen_Playback.tla", write_cfg("Gen_Playback_%s.cfg" % fin, base), "sim", num=num, depth=17, tag="c03g")
        for b in bs:
            for kind in ("static", "stream"):
                scen.append({"kind": kind, "finite": fin, "lenc": 3, "src": "tlc-sim", "steps": b,
                             "e0": len(scen) % 5, "ring": 12 if (kind == "stream" and not fin and len(scen) % 4 == 1) else 0})
            if not fin:
                # the same history on a stream whose decoder delivers nothing (or 30 frames) and then hangs:
                # silent, but the life cycle must run on time all the same
                scen.append({"kind": "starved", "after": [0, 30][len(scen) % 2], "finite": False, "lenc": 3, "src": "tlc-sim-starved", "steps": b})
    # directed: a resume (or pause) that arrives while a streaming sound is Stopping - the statement leaves the outcome
    # open, but whatever state the handle then reports must be what is heard (small frame ring: a decoder thread that
    # has given up is heard within a few callbacks)
    cbs = lambda n: [{"act": "Callback"}] * n
    for d in (2, 3):
        for c2 in ("resume", "pause"):
            for after in (1, 2):
                steps = cbs(2) + [{"act": "Cmd", "c": "stop", "d": d}] + cbs(after) + [{"act": "Cmd", "c": c2, "d": 0}] + cbs(3)
                if c2 == "pause":
                    steps += [{"act": "Cmd", "c": "resume", "d": 0}]
                scen.append({"kind": "stream", "finite": False, "lenc": 3, "src": "directed-command-while-stopping", "ring": 12, "e0": 0, "steps": steps + cbs(10)})
    # directed: a finite sound whose start position is at or beyond its end has nothing to play: it reaches Stopped all the same
    for kind in ("static", "stream"):
        for start in (12, 13, 40):
            scen.append({"kind": kind, "finite": True, "lenc": 3, "start": start, "src": "directed-start-at-end", "e0": 0, "steps": cbs(10)})
    # bounded exhaustive: every behaviour of depth 5 (quick) / 6 (thorough) with one duration set
    depth = 5 if tier == "quick" else 6
    base = cfg([0, 2], [0, 2], 3, 5, False, 3, "  D = %d\nCONSTRAINT Bound\nINVARIANT Dump\n" % depth)
    bs = tlc_generate("Gen_Playback.tla", write_cfg("Gen_Playback_ex.cfg", base), "bfs", timeout=1200, tag="c03g")
    if tier == "quick" and len(bs) > 1200:
        stride = len(bs) // 1200 + 1
        bs = bs[seed() % stride::stride]
    for j, b in enumerate(bs):
        scen.append({"kind": "static" if j % 2 == 0 or tier == "thorough" else "stream", "finite": False, "lenc": 3,
                     "src": "tlc-exhaustive", "steps": b})
        if tier == "thorough":
            scen.append({"kind": "stream", "finite": False, "lenc": 3, "src": "tlc-exhaustive", "steps": b})
    # seeded random, longer, richer durations
    for k in range(40 if tier == "quick" else 1500):
        steps = []
        for _ in range(rng.randint(10, 40)):
            r = rng.random()
            if r < 0.55:
                steps.append({"act": "Callback"})
            else:
                c = rng.choice(["pause", "resume", "stop", "resume_at", "pause", "resume"])
                st = {"act": "Cmd", "c": c, "d": rng.choice([0, 1, 2, 3, 5]), "wk": "none", "wt": 0}
                if c == "resume_at":
                    st["wk"] = rng.choice(["delayed", "clock", "noclock", "delayed", "clock"])
                    st["wt"] = rng.choice([0, 1, 2, 4])
                steps.append(st)
        steps += [{"act": "Callback"}] * 3
        fin = rng.random() < 0.4
        scen.append({"kind": rng.choice(["static", "stream"]), "finite": fin, "lenc": rng.choice([2, 3, 5]),
                     "src": "random", "steps": steps})
    return scen


def drift_of(scen, sessions):
    out = []
    for k, sc in enumerate(scen):
        if not sc["src"].startswith("tlc-") or sc["kind"] == "starved":
            continue
        evs = [e for e in sessions.get(k + 1, []) if e["a"] in ("cmd", "cb")]
        for j, step in enumerate(sc["steps"]):
            if j >= len(evs):
                out.append({"session": k + 1, "step": j, "why": "real run ended early"})
                break
            me, re_ = step["ev"], evs[j]
            if me["a"] != "cb":
                continue
            keys = ["state", "zero", "mono", "g0", "g1", "nsounds"] + (["pos"] if sc["kind"] == "static" else [])
            if any(me[x] != re_.get(x) for x in keys):
                out.append({"session": k + 1, "kind": sc["kind"], "step": j, "model": {x: me[x] for x in keys},
                            "real": {x: re_.get(x) for x in keys}})
                break
    return out


def run(tier):
    res = Result(PROP, tier, "model_checking")
    rng = random.Random(seed())
    build_harness()
    model_check(res, tier)
    scen = generate(tier, rng)
    sp, tp = os.path.join(OUT, "c03", "scen.ndjson"), os.path.join(OUT, "c03", "trace.ndjson")
    write_ndjson(sp, scen)
    run_kv("c03", sp, tp)
    bad, _ = tlc_validate("T_C03.tla", os.path.join(SPEC, "T_C03.cfg"), tp)
    judge(res, PROP, scen, tp, bad)
    res.drift += drift_of(scen, sessions_of(read_ndjson(tp)))
    res.evaluations = len(scen)
    for sc in scen:
        key = [sc["kind"], sc["finite"], sc["lenc"], [(s["act"], s.get("c"), s.get("d"), s.get("wk"), s.get("wt")) for s in sc["steps"]]]
        if any(s["act"] == "Cmd" for s in sc["steps"]):
            res.distinct.add(behaviour_hash(key))
    res.samples = [{"kind": s["kind"], "finite": s["finite"], "src": s["src"],
                    "steps": [[x["act"], x.get("c"), x.get("d"), x.get("wk"), x.get("wt")] for x in s["steps"]][:24]}
                   for s in scen[:1] + scen[-1:]]
    res.assumptions = ["one callback = one internal chunk; durations are whole chunks (exact in floating point)",
                       "the streaming decoder thread is free-running and given time to keep ahead",
                       "triple-buffer command transport (C07) delivers the last write per kind"]
    return res.finish("scenario = sound kind (static|streaming) x finite/looping x command history (TLC behaviour of Playback.tla, "
                      "bounded exhaustive to depth 5/6 and simulated to depth 16, or seeded random); distinct by hash; "
                      "non-trivial = contains at least one command")
