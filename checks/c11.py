"""C11 - rendered audio does not depend on buffer sizes.

1. Model level: Mixer.tla (see C02) is checked by TLC for internal buffer sizes 1-3 and callback sizes
   including remainders against a reference (P_C02) that does not mention either - chunk independence
   of the mixer's buffer handling for every explored scene and history.
2. TLC generates (Gen_C11.tla) scenes with fixed parameters - two real static sounds at rates 0.5/1/1.3,
   looping or not, panned, on nested tracks with a send, any of the eight built-in effects on main,
   both tracks and the send - and three (internal buffer, callback partition) pairs each, from buffer
   sizes {1,2,3,7,128,4096} and partitions {1-frame callbacks, b, b+1, primes, one big callback}.
3. The harness renders each scene once per pair on the real library; TLC validates (T_C11.tla) that all
   renderings agree: bit for bit, or within 1e-6 when a recursive effect is present."""
import os
import random

from lib.kvlib import *

PROP = "C11"
MANIFEST = dict(
    level="model_checking", design_ref="DESIGN.md 8 (C11), 7 (Mixer / Render)",
    technique="TLA+ model of the renderer/mixer chunking (TLC) against a buffer-size-free reference + TLC-generated scenes and (buffer size, partition) pairs rendered repeatedly on the real library + TLC trace validation of the equality relation P_C11",
    text="Chunk independence of the mixer's buffer handling is model-checked (Mixer.tla against P_C02, whose expected output mentions neither the internal buffer size nor the callback sizes). On the implementation, TLC-generated scenes of real sounds (resampled, looping, panned), nested tracks, a send and any built-in effect are rendered under three buffer-size/partition pairs each (incl. 1-frame callbacks, non-multiples and a single large callback) and TLC checks the renderings against each other: bit-exact, or within 1e-6 where a recursive effect (filter, EQ, delay, reverb, compressor) is in the scene. Scenes include pannings that are not round in binary, sounds with a stretch of exact silence, and older, shorter sounds that end in the middle of a chunk while younger ones go on.",
    note="Parameters are constant and no commands are in flight (as in the statement). Scenes are sampled from the generator's space by TLC simulation; 256 frames at 8 kHz per rendering (1024 in the thorough tier).")


def write_cfg(name, text):
    p = os.path.join(OUT, "cfg", name)
    os.makedirs(os.path.dirname(p), exist_ok=True)
    open(p, "w").write(text)
    return p


def run(tier):
    res = Result(PROP, tier, "model_checking")
    build_harness()
    # model level: the C02 model with its chunking
    c = "SPECIFICATION Spec\nCONSTANTS\n  Scenes <- QuickScenes\n  Bs = {1, 2, 3}\n  Ns = {1, 3, 4, 5}\n  MaxOps = 0\n  MaxCb = %d\nVIEW View\nINVARIANTS PropertyHolds SendInputCleared\nCHECK_DEADLOCK FALSE\n"
    st = tlc_check("MC_Mixer.tla", write_cfg("Mixer_c11.cfg", c % (3 if tier == "quick" else 4)), workers=8, timeout=6000, tag="c11mc")
    if st["violated"]:
        res.drift.append({"model": "Mixer/partitions", "violated": st["violated"]})
    res.add_mc("Mixer (chunking) Bs={1,2,3} Ns={1,3,4,5}", st)
    tlc_check("MC_Mixer.tla", write_cfg("Mixer_c11w.cfg", "SPECIFICATION Spec\nCONSTANTS\n  Scenes <- QuickScenes\n  Bs = {2}\n  Ns = {3}\n  MaxOps = 0\n  MaxCb = 1\nVIEW View\nINVARIANT W_Remainder\nCHECK_DEADLOCK FALSE\n"),
              workers=4, timeout=900, expect_violation="W_Remainder", tag="c11w")
    num = 120 if tier == "quick" else 4000
    bs = tlc_generate("Gen_C11.tla", write_cfg("Gen_C11.cfg", "SPECIFICATION Spec\nCONSTANTS\n  NCfg = 3\nINVARIANT Dump\nCHECK_DEADLOCK FALSE\n"),
                      "sim", num=num, depth=12, timeout=1500, tag="c11g")[:num]
    scen = []
    for x in bs:
        s = dict(x[0])
        s["t"] = 256 if tier == "quick" else 1024
        s["src"] = "tlc-sim"
        scen.append(s)
    # every effect alone on every position, against the extreme pairs
    for e in range(1, 9):
        for pos in range(4):
            fx = [0, 0, 0, 0]
            fx[pos] = e
            scen.append({"fx": fx, "rates": [256, 333], "loops": [True, False], "pans": [2, 3], "gaps": [True, True], "t": 256, "src": "grid",
                         "cfgs": [{"b": 128, "part": "big"}, {"b": 1, "part": "ones"}, {"b": 7, "part": "primes"}, {"b": 4096, "part": "b1"}]})
    sp, tp = os.path.join(OUT, "c11", "scen.ndjson"), os.path.join(OUT, "c11", "trace.ndjson")
    write_ndjson(sp, scen)
    run_kv("c11", sp, tp, timeout=3000)
    bad, _ = tlc_validate("T_C11.tla", os.path.join(SPEC, "T_C11.cfg"), tp, timeout=3000)
    judge(res, PROP, scen, tp, bad)
    res.evaluations = sum(len(s["cfgs"]) for s in scen)
    for s in scen:
        res.distinct.add(behaviour_hash([s["fx"], s["rates"], s["loops"], s["pans"], s.get("gaps"), s["cfgs"]]))
    res.samples = [{k: s[k] for k in ("fx", "rates", "loops", "pans", "cfgs", "src")} for s in scen[:1] + scen[-1:]]
    res.assumptions = ["constant parameters, no commands in flight", "f32 output compared bit for bit / at 1e-7 resolution"]
    return res.finish("scenario = scene (effects on main/tracks/send, sound rates, loops, panning) x 3-4 (internal buffer size, callback "
                      "partition) pairs; evaluations = renderings; distinct by hash of scene and pairs")
