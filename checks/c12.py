"""C12 - pausing a track freezes its subtree; removal follows handle/persistence rules.

1. TLC model-checks Track.tla (track tree main <- A <- B with a sound on each: command reading,
   fade/state machine per track, top-down freezing, should_be_removed recursion with persistence,
   pick-up in the first callback) against the P_C12 monitor for all histories of <= MaxOps
   pause/resume/resume_at/drop/stop operations at arbitrary callback boundaries.
2. TLC-generated behaviours and seeded random histories run on a real track tree with index-coded
   sounds; every callback records track states, the source frame heard from each sound and counts.
3. TLC validates every recorded session against P_C12 (T_C12.tla)."""
import json
import os
import random

from lib.kvlib import *

PROP = "C12"
MANIFEST = dict(
    level="model_checking", design_ref="DESIGN.md 8 (C12), 7 (Track)",
    technique="TLA+ model of the track tree (TLC, all operation histories up to a bound) against a property monitor; TLC behaviours replayed on a real track tree with index-coded sounds; TLC trace validation against P_C12",
    text="TLC explores every history of up to 3-4 operations (pause/resume/resume_at with delayed, clock and missing-clock start times and fades of 0 or 2 chunks on parent or child track, dropping either handle, stopping either sound, persistence on/off) interleaved with callbacks, against the monitor: subtree silent while an ancestor is paused, sounds continue from exactly the frozen frame (index continuity), removal not before and at the callback after the track becomes removable, never while a descendant handle lives, state() one of five values and never panicking. The same histories are executed on real tracks and validated by TLC. Every third history runs with track B as a transparent spatial track (listener and emitter at one place, no attenuation, strength 0).",
    note="Scene: a chain main <- A <- B [<- C] (depth 2 or 3) with one sound per track. Re-pausing a track that already reports a paused state is outside the generated domain (it un-freezes the subtree during the silent fade; the statement does not cover it). A resume at a start time may begin its fade-in one callback after the start time (the chunk in which the start time arrives is processed at zero gain): accepted as 'within one callback'.")


def cfg(durs, waits, maxops, maxcb, pa, pb, extra, depth=2, pc=False):
    return """SPECIFICATION %s
CONSTANTS
  Durs = {%s}
  Waits = {%s}
  MaxOps = %d
  MaxCb = %d
  PersistA = %s
  PersistB = %s
  PersistC = %s
  NF = 4
  Depth = %d
%s
CHECK_DEADLOCK FALSE
""" % ("GSpec" if "D =" in extra else "Spec", ", ".join(map(str, durs)), ", ".join(map(str, waits)), maxops, maxcb,
       "TRUE" if pa else "FALSE", "TRUE" if pb else "FALSE", "TRUE" if pc else "FALSE", depth, extra)


def write_cfg(name, text):
    p = os.path.join(OUT, "cfg", name)
    os.makedirs(os.path.dirname(p), exist_ok=True)
    open(p, "w").write(text)
    return p


INV = "VIEW View\nINVARIANTS PropertyHolds StatesValid ChildNeverOutlivesParent NeverRemovedWhileChildHandleAlive"


def model_check(res, tier):
    runs = [("plain", [0, 2], [0, 2], 3, 6, False, False, 2), ("persist", [0], [0], 3, 6, True, True, 2),
            ("deep", [0, 2], [0], 3, 5, False, False, 3), ("deep-persist", [0], [0], 3, 6, False, True, 3)]
    if tier == "thorough":
        runs = [("plain", [0, 2], [0, 2], 4, 7, False, False, 2), ("persistA", [0, 2], [0], 4, 8, True, False, 2),
                ("persistB", [0, 2], [0], 4, 8, False, True, 2), ("deep", [0, 2], [0, 2], 4, 6, False, False, 3),
                ("deep-persist", [0, 2], [0], 4, 7, False, True, 3)]
    for name, durs, waits, mo, mcb, pa, pb, depth in runs:
        st = tlc_check("MC_Track.tla", write_cfg("Track_%s.cfg" % name, cfg(durs, waits, mo, mcb, pa, pb, INV, depth=depth, pc=(name == "deep-persist"))),
                       workers=8, timeout=6000, tag="c12mc")
        if st["violated"]:
            res.drift.append({"model": "Track/" + name, "violated": st["violated"]})
        res.add_mc("Track/%s durs=%s waits=%s ops<=%d cb<=%d" % (name, durs, waits, mo, mcb), st)
    tlc_check("MC_Track.tla", write_cfg("Track_W_Deep.cfg", cfg([0], [0], 2, 5, False, False, "VIEW View\nINVARIANT W_Deep", depth=3)),
              workers=4, timeout=900, expect_violation="W_Deep", tag="c12w")
    for w in ("W_Removed", "W_FrozenChild"):
        tlc_check("MC_Track.tla", write_cfg("Track_%s.cfg" % w, cfg([0], [0], 2, 5, False, False, "VIEW View\nINVARIANT " + w)),
                  workers=4, timeout=900, expect_violation=w, tag="c12w")


def generate(tier, rng):
    scen = []
    num = 150 if tier == "quick" else 4000
    for pa, pb, pc, depth in ((False, False, False, 2), (True, False, False, 2), (False, True, False, 2),
                              (False, False, False, 3), (False, False, True, 3), (True, False, False, 3)):
        base = cfg([0, 2], [0, 1, 2], 6, 14, pa, pb, "  D = 16\nCONSTRAINT Bound\nINVARIANT Dump\n", depth=depth, pc=pc)
        bs = tlc_generate("Gen_Track.tla", write_cfg("Gen_Track_%s%s%s%d.cfg" % (pa, pb, pc, depth), base), "sim",
                          num=num if not (pa or pb or pc) else num // 3, depth=17, timeout=1500, tag="c12g")
        for b in bs[:num * 2]:
            # (every third history runs with track B as a transparent spatial track: the statement does not tell the kinds apart)
            scen.append({"persistA": pa, "persistB": pb, "persistC": pc, "depth": depth, "spatialB": len(scen) % 3 == 2, "src": "tlc-sim", "steps": b})
    # seeded random with the same domain restrictions (pause only when running, resume only when paused)
    for k in range(60 if tier == "quick" else 2000):
        steps = []
        depth = rng.choice([2, 3])
        tracks = ["A", "B"] + (["C"] if depth == 3 else [])
        paused = {t: False for t in tracks}
        dropped = set()
        for _ in range(rng.randint(8, 30)):
            r = rng.random()
            if r < 0.5:
                steps.append({"act": "Callback"})
            elif r < 0.85:
                t = rng.choice(tracks)
                if t in dropped:
                    continue
                d = rng.choice([0, 2, 3])
                if not paused[t]:
                    steps.append({"act": "Cmd", "t": t, "c": "pause", "d": d, "wk": "none", "wt": 0})
                    paused[t] = True
                else:
                    if rng.random() < 0.5:
                        steps.append({"act": "Cmd", "t": t, "c": "resume", "d": d, "wk": "none", "wt": 0})
                        paused[t] = False
                    else:
                        wk = rng.choice(["delayed", "clock", "noclock"])
                        steps.append({"act": "Cmd", "t": t, "c": "resume_at", "d": d, "wk": wk, "wt": rng.choice([0, 1, 3])})
                        paused[t] = wk == "noclock"
                # a command takes effect at the next callback: keep commands to one track one window apart
                steps.append({"act": "Callback"})
            elif r < 0.93:
                t = rng.choice(tracks)
                if t not in dropped:
                    dropped.add(t)
                    steps.append({"act": "Drop", "t": t})
            else:
                steps.append({"act": "Stop", "s": rng.choice(["S" + t for t in tracks])})
        steps += [{"act": "Callback"}] * 4
        scen.append({"spatialB": rng.random() < 0.3, "persistA": rng.random() < 0.3, "persistB": rng.random() < 0.3, "persistC": depth == 3 and rng.random() < 0.3,
                     "depth": depth, "src": "random", "steps": steps})
    # directed: a pause written while a scheduled resume is still waiting for its start time - the pause is the last word
    # (random histories meet this only now and then)
    cbs = lambda n: [{"act": "Callback"}] * n
    for t in ("A", "B"):
        for wk in ("delayed", "clock"):
            for d in (0, 2):
                for gap in (1, 2):
                    steps = cbs(2) + [{"act": "Cmd", "t": t, "c": "pause", "d": 0, "wk": "none", "wt": 0}] + cbs(2) \
                        + [{"act": "Cmd", "t": t, "c": "resume_at", "d": d, "wk": wk, "wt": 3}] + cbs(gap) \
                        + [{"act": "Cmd", "t": t, "c": "pause", "d": d, "wk": "none", "wt": 0}] + cbs(9)
                    scen.append({"spatialB": False, "persistA": False, "persistB": False, "persistC": False, "depth": 2,
                                 "src": "directed-pause-over-waiting-resume", "steps": steps})
    return scen


def drift_of(scen, sessions):
    out = []
    for k, sc in enumerate(scen):
        if not sc["src"].startswith("tlc-"):
            continue
        evs = [e for e in sessions.get(k + 1, []) if e["a"] in ("cmd", "cb", "drop", "stop")]
        for j, step in enumerate(sc["steps"]):
            if j >= len(evs):
                out.append({"session": k + 1, "step": j, "why": "real run ended early"})
                break
            me, re_ = step["ev"], evs[j]
            if me["a"] != "cb":
                continue
            keys = ["st", "first", "zero", "ntop", "nA", "nB", "sst"]
            me, re_ = json.loads(json.dumps(me)), json.loads(json.dumps(re_))
            if re_.get("first", {}).get("SA") in (-2, -4):
                # while SA is faded the shared channel cannot show SC: the driver makes no claim about it
                for d in (me, re_):
                    d["first"]["SC"] = d["zero"]["SC"] = None
                    if re_["first"]["SA"] == -4:
                        d["first"]["SA"] = d["zero"]["SA"] = None
            if me["first"].get("SC") == -2 and re_.get("first", {}).get("SC") == -1:
                # SC rides in the fraction of SA's channel (1/1024 of a code unit): under two stacked fades (its own track's and an
                # ancestor's, about -30 dB each after one chunk) it falls below the driver's silence threshold - no claim either way
                for d in (me, re_):
                    d["first"]["SC"] = d["zero"]["SC"] = None
            if any(me[x] != re_.get(x) for x in keys):
                out.append({"session": k + 1, "step": j, "model": {x: me[x] for x in keys}, "real": {x: re_.get(x) for x in keys}})
                break
    return out


def run(tier):
    res = Result(PROP, tier, "model_checking")
    rng = random.Random(seed())
    build_harness()
    model_check(res, tier)
    scen = generate(tier, rng)
    sp, tp = os.path.join(OUT, "c12", "scen.ndjson"), os.path.join(OUT, "c12", "trace.ndjson")
    write_ndjson(sp, scen)
    run_kv("c12", sp, tp)
    bad, _ = tlc_validate("T_C12.tla", os.path.join(SPEC, "T_C12.cfg"), tp)
    judge(res, PROP, scen, tp, bad)
    res.drift += drift_of(scen, sessions_of(read_ndjson(tp)))
    res.evaluations = len(scen)
    for sc in scen:
        if any(s["act"] != "Callback" for s in sc["steps"]):
            res.distinct.add(behaviour_hash([sc["persistA"], sc["persistB"], sc.get("persistC"), sc.get("depth"), sc.get("spatialB"), [(s["act"], s.get("t"), s.get("c"), s.get("d"), s.get("wk"), s.get("wt"), s.get("s")) for s in sc["steps"]]]))
    res.samples = [{"persistA": s["persistA"], "persistB": s["persistB"], "src": s["src"],
                    "steps": [[x["act"], x.get("t") or x.get("s"), x.get("c"), x.get("d"), x.get("wk"), x.get("wt")] for x in s["steps"]][:24]}
                   for s in scen[:1] + scen[-1:]]
    res.assumptions = ["one callback = one internal chunk; fades of 0 or whole chunks", "commands reach the audio thread as in C07"]
    return res.finish("scenario = persistence flags x history of track commands, handle drops, sound stops and callbacks "
                      "(TLC behaviour of Track.tla simulated to depth 16, or seeded random); distinct by hash; non-trivial = contains an operation")
